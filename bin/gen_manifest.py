#!/usr/bin/env python3
"""Regenerates /verif/MANIFEST.json from the table below and from `bin/authcheck list` (the set of
properties that have a registered check).  Run after adding or removing a check."""
import json, os, subprocess, sys

VERIF = os.path.dirname(os.path.dirname(os.path.abspath(__file__)))

# additions of the second round of independently seeded changes (rule families, see DESIGN 11.1)
EXTRA = {
 "C17": "; URL-validator tests cannot be bypassed by an early `return f(…)`; the merge returns the join of everything collected, evaluated after the loops; the one-OIDC-filter-per-chain latch is monotone within a chain; the root-path tests compare url.Parse(x).Path with \"/\" and \"\"; the loader never appends onto a slice of the shared default configuration; a range over a non-empty literal executes its body (loop-aware must-pass)",
 "C16": "; shared vs exclusive lock tokens; no write to a dependency's package-level object without Clone; response header lists own their backing array; http.Transport writes only on transports of the same call; response object per check; generator wiring and statelessness rules of C06 filed under R4; no long-lived own struct keeps a dependency object that is not safe for concurrent use; start gates are closed before their owner blocks; function values and method expressions inherit the lockset of the site that invokes them; elements of a literal built in the activation are fresh",
 "C06": "; generator results never kept in long-lived containers; the callback's session id comes from the cookie only; the response the filters write to is allocated by the check that returns it; response header lists own their backing array",
 "C02": "; the judging handler is built per check from the matched filter; the access-token entry is written whenever forwarding is configured and a token is present (path feasibility under assumed atoms); discovery cache keyed by the fetched URI; every http.Transport field write and every http.Client.Transport is a transport created in the same call; discovery assigns authorization, token and JWKS endpoints on every successful path; the TLS pool key covers every setting (C20.R4 filed under R5)",
 "C01": "; trigger-decision shape refiled as a necessary condition (no `not triggered` before every rule was consulted); the refreshed token object must be an allocation of the refresh helper; verdict totality of every Handler.Process refiled (an unset verdict is read as OK); the expiry writers' guard is expires_in > 0 itself (C03.R4 filed under R4); the access token is written to Redis before its expiry (C12.R2 filed under R6)",
 "C03": "; transport-wrapper rule over own http.RoundTripper implementations (body-consuming dump applied to the forwarded request, no write to the incoming request's headers/fields); TLS pool insertion only after the load can no longer fail; IdP answer read whole; response header lists own their backing array; optional nonce compared only against an existing expectation; token_type comparison decisive; the handler's configuration is the constructor's parameter or its own clone; discovery assigns the endpoints on every successful path; the memory store's expiry predicate rules (C10.R1) filed under R2; a single IdP-response validator shared by login and refresh is recognised",
 "C04": "; transport-wrapper rule over own http.RoundTripper implementations (credentials and form of the token request reach the IdP unchanged); the Basic credentials are encoded with base64.StdEncoding; the token request is sent at most once per exchange; the handler's configuration is its own; the TTL-refresher rules (C10.R3) filed under R4",
 "C05": "; every object that can be the logout answer carries the expiring cookie; response header lists own their backing array; stores report a failed removal; the cookie decoder splits the whole header (no bounded split, no return from inside the loop); the cookie header is split on ';' only; the cookie name is constants + the configured prefix as it is",
 "C07": "; `not triggered` only behind the exhaustion of the rule loop; the trigger functions consult no package-level state; no own function writes into the ext_authz request; no own function rewrites the trigger rules after loading",
 "C08": "; who-may-write rule on Config.Chains / FilterChain.Filters / FilterChainMatch; the unmatched tail is entered only from the chain loop's exhaustion edge; no own function writes into the ext_authz request (interceptors included); the AllowUnmatchedRequests default is applied only behind the exhaustion of the chain list",
 "C09": "; response header lists never share the backing array of a package-level slice; discovery cache keyed by the fetched URI; the cookie the logout expires is named by the filter's own cookie name; discovery runs whenever a configuration URI is set; every successful Redis operation passes through the TTL refresher, which fails on a removed session (C09.R6); the callback re-checks the session between the code exchange and the token write; only the discovery loader assigns the endpoints and the logout redirect URI; a denial helper counts as a plain denial",
 "C10": "; store constructors called only from the factory's PreRun; HSETNX of the creation time on every successful path of both setters and never HDEL'ed; the refresher is handed the stored creation time and arms EXPIREAT on every successful return; only the two write operations stamp; a looked-up session reaches its first use only through the expiry predicate (also through phis); the expiry predicate may be a function of the session with the timeouts passed in (parameters bound to the store's fields at every call site); the in-memory store is built under `this filter has no Redis server`; timeouts bundled in a struct are resolved",
 "C11": "; expiry-test shape refiled (a required token's expiry cannot be shadowed); optional nonce compared only against an existing expectation; token_type comparison decisive; the token request is sent at most once per exchange; merge alternatives are judged under the facts of the edge that selects them",
 "C12": "; creation-time stamping on every successful path (no replica-local `already stamped` shortcut); shared (RLock) vs exclusive lock tokens: writes need the exclusive one; every successful Redis operation re-arms the expiry (C12.R7); key tables of constants in slice-of-struct literals are resolved; the access token is written before its expiry member",
 "C13": "; discovery cache keyed by the fetched URI; exact openid scope rule of the loader refiled; discovery runs whenever a configuration URI is set; the judging handler is built per check from the matched filter; discovery assigns the endpoints on every successful path",
 "C14": "; whole-object taint sources (an object with secret fields handed to a formatter); token fields are assigned from same-named fields only; the response object is allocated per check; the judging handler is built per check from the matched filter; lists of the OK response other than Headers receive no token-bearing header; data read from a Kubernetes Secret is stored only as the client secret",
 "C15": "; own RoundTripper implementations are crash roots; the value result of a (value, error) call passed to a dependency function counts as a dereference; results of dependency interfaces follow the err == nil convention; make sizes must be constants, lengths or known non-negative; no own function returns with a mutex held and no deferred unlock (C15.R6, lockset analysis of C16); start gates are closed before their owner blocks and memory-store writes hold the exclusive lock (filed under R6)",
 "C18": "; loop-carried-argument rule on the store constructors' timeouts; handler built per check from the matched filter; the Redis client of a store is NewClient(ParseURL(own URI)); proto.Merge writes into an own copy; transports are per call; the handler's configuration is its own; key-set provenance of C02.R5 filed under R3; the cookie name is constants + the configured prefix as it is",
 "C19": "; latch rule on the watch decision; provenance rule on the handler's configuration (constructor parameter or its own proto.Clone); once the index key is computed the registration cannot be skipped; Reconcile returns without updating only for the enumerated reasons",
 "C20": "; TLS pool insertion only after the load can no longer fail; the file reader keeps the configured path as given; transports are per call; FileReader.Read returns the bytes of a read made by that call; pool insertion may go through a helper; own code sets only the audited tls.Config fields; the content-differs test may be bytes.Equal",
}

# id -> (technique, level text, level note)
CLAIMS = {
 "C01": ("SSA branch-fact (must) dataflow + CFG reachability + callee summaries: who-may-write-OK, allow-site justification, static fault enumeration over every error/absent result, server-loop rule, store-level liveness rules (C10.R1–R3 filed as C01.R6)",
         "Decides, for every path through Check/Process and every position at which a store, IdP or key-source call can fail, that no OK writer is reachable without the justification facts (fresh or just-refreshed-and-persisted tokens under the cookie's session id). Structural necessary conditions of the fail-closed property for all inputs and fault positions; does not decide whether a stored session ought to be alive (C10) nor library internals.",
         "go/types+go/ssa model of /repo; role table (verdict writers, store interface, token exchange, validator) resolved from types; jwx/net/http contracts assumed"),
 "C06": ("type-resolved reference scan + SSA data-dependence slice from every generator method's result to a crypto/rand draw; production wiring by call-site provenance (whole-program SSA in thorough to follow oauth2.GenerateVerifier)",
         "Decides for every code path that can produce a session id, state, nonce or PKCE verifier in the shipped sources that the value data-depends on bytes drawn from the OS CSPRNG in that activation, and that no math/rand, clock or carried-over generator state is reachable from it. This is the static argument the property itself asks for; statistical quality of crypto/rand is assumed.",
         "go/ssa model; crypto/rand is a CSPRNG; oauth2.GenerateVerifier contract (re-derived from its SSA in the thorough tier)"),
 "C07": ("interprocedural provenance of every matcher input to the splitter's path result; CFG outcome rules on the trigger decision, rule matcher and splitter; exhaustiveness of the pattern type switch against the generated oneof",
         "Decides that no string other than the path component (result #0 of the splitter applied to the request target) can reach a pattern matcher or the empty-path test, that the splitter cuts at the first '?'/'#', and that the decision functions have the documented shape (disjunction over rules, excluded before included, empty lists) with an arm per pattern kind and the path as subject. The boolean function over all inputs is not enumerated.",
         "go/ssa model; Envoy puts the query inside `path`; strings/regexp contracts"),
 "C15": ("call-graph reachability from Check (static + own-type CHA) and per-site obligations: unchecked type assertions, nil-dereference with callee nil/failure-signal summaries and edge-sensitive branch facts, verdict totality (must-pass), bounds idioms, abort scan",
         "For every function reachable from Check in own code, enumerates every site of the panic classes that originate in own code (type assertion, nil dereference of a value that can be nil, index/slice, map write, explicit abort) and requires a recognised discharging idiom at each; an unrecognised site fails closed. Decides crash-freedom for those classes over all inputs and IdP/store answers; panics inside jwx/net/http/protobuf/go-redis and termination are not decided.",
         "go/ssa model; dependency functions follow the (value, error) convention; generated getters are nil-safe (checked for own generated code); protojson yields no nil repeated elements"),
 "C17": ("must-pass/branch-fact ordering of the load pipeline, error discipline over the loader's own functions, enforcement-site table checked in the merge code and in the generated validators, post-state rules, C15 crash-class rules with Validate as entry",
         "Decides that a nil result of Validate can only be the verdict of the generated ValidateAll reached after decode, URL validation and merge succeeded; that each obligation named by the property has an enforcement site that guards an error on the merged configuration; that overrides are replaced and the default cleared; and that no own-code panic class is reachable while loading. The space of JSON documents is not explored.",
         "go/ssa model; protojson/protoc-gen-validate runtime contracts; generated code is read like any other source"),
 "C10": ("typestate/path rules on the memory store (every map lookup passes the expiry predicate; predicate pairing by data dependence), HSETNX write-once rule, must-pass TTL-refresh on every successful Redis return, provenance of EXPIREAT alternatives, constructor/wiring parameter-role agreement, registration in main",
         "Decides that expiry enforcement is on the access path of the assembled service (not in an uncalled sweep), that each timeout is paired with its own base, that creation time is write-once in both stores, that every successful Redis operation refreshes the TTL from created+absolute / now+idle (earlier wins), and that the timeouts are wired to the right constructor parameters from main. Boundary seconds, TTL arithmetic values and real elapsed time are not decided.",
         "go/ssa model; Redis honours EXPIREAT; run.Group calls PreRun of registered units"),
 "C16": ("consistent-lockset (guarded-by) analysis over own code: interprocedural must-lockset with closure/callback contexts and channel happens-before pseudo-locks, freshness (escape) exemption, goroutine-confinement idiom, lock-order graph, blocking-under-lock and unlock-pairing rules",
         "The static counterpart of the race detector over all pairs of accesses: for every location class written from a concurrency root on a shared object, every access reachable from any root must hold a common mutex or fall under an enumerated happens-before idiom. Two genuine races remain and are listed as known findings (Reconcile vs GetClientSecret; updateCA vs tls.Config readers). Library-internal races, actual schedules and deadlocks involving library locks are not decided.",
         "go/ssa model; location classes are type+field (alias-insensitive); run.Group start-up phase is single-threaded; sync.Mutex semantics"),
 "C02": ("access-path identity between the validated string and the stored ID token (branch facts), field-wise provenance of stored tokens, assumed-atom path feasibility on the validator (audience/nonce), forbidden-API scan over resolved callees, table rules on the header encoder, key-set provenance of every JWKSProvider implementation (requesting filter's configuration only)",
         "Decides that no SetTokenResponse is reachable unless the validator accepted the very ID token being stored and the other token fields come from this check's token-endpoint answer or the stored tokens; that the validator cannot return `valid` without key-set signature verification over the parsed bytes, a client-id audience match and (when required) a present, equal nonce; that no jwx shortcut option is used; and that OK headers are exactly the bound tokens under their own header/preamble. Acceptance of concrete forged tokens is delegated to jwx through the one permitted API shape.",
         "go/ssa model; jwx WithKeySet+WithInferAlgorithmFromKey contract"),
 "C04": ("branch facts at the code-exchange call, exact table rules on the token request (url.Values / http.Header literals) and on the exchange function, SSA value identity between issued and stored state/nonce/verifier, must-pass consumption rule",
         "Decides that the code exchange is reachable only for this cookie's session with a loaded login state whose state equals the request's (exact string comparison), that the request carries exactly the stored verifier, configured redirect URI and Basic client credentials to the configured token URI, that what is sent in the redirect is what is stored, and that tokens are bound only after the login state was cleared. Concurrent replay of one callback is not decided.",
         "go/ssa model; oauth2.S256ChallengeFromVerifier and net/url contracts"),
 "C05": ("SSA value identity (fresh id ↔ cookie ↔ state key), assumed-atom path feasibility for remove-before-generate, failure-region reachability, call-site facts for the presented id, constant-set rules on cookie name and directives, who-may-write scan for set-cookie",
         "Decides that the redirect's cookie and login-state key are one fresh generator result, that a presented session is removed first and a failed removal stops the redirect, that tokens are only stored under ids with a successful prior read, and that cookie name and directives have the required constant shape with a single writer; logout sets timeout 0. Value inequality of ids is C06's question.",
         "go/ssa model; user agents honour the __Host- prefix rules"),
 "C13": ("provenance of the Location values, exact eight-key table rule with sources, guarded merge of the endpoint's own query, leaf-set rule on the stored return URL, constructor-provenance rule for every redirect answer",
         "Decides that the login Location is the rendering of the parsed authorization URI with RawQuery = Encode(table ∪ endpoint query), never a \"?\" concatenation; that the table has exactly the eight parameters from their configured/issued sources; that the return URL is stored and replayed verbatim from scheme/host/path/query; and that every redirect carries the no-cache headers. Character-level escaping is delegated to net/url.",
         "go/ssa model; net/url contracts"),
 "C03": ("structural-link rules on the redirect/callback model (cookie name and id round trip, return address), edge-sensitive guard rule on every expiry computation and on the reader (sibling agreement on `expiry unknown`), sibling cross-check of the two IdP-response validators, exhaustive classification of every validator rejection (no extra rejections), callback-test shape, path-existence rule for the fresh path",
         "Decides the structural necessary conditions without which the redirect chain cannot close for a compliant IdP: same cookie name and session id on both sides, return to the stored URL with a 302 after binding, `expires_in` omitted ⇒ expiry left unknown by both writers and skipped by the reader, tolerant token_type/unknown-member decoding, and an IdP-free path for fresh tokens. Progress of the composed chain over all IdP behaviours is not decided.",
         "go/ssa model; C13.R3 for the return URL composition"),
 "C09": ("branch facts (logout test dominates every allow / IdP call), assumed-atom path feasibility (remove before answer), failure-region reachability, answer-shape provenance, logout-test shape, store-level `removal failure is reported` rule, effect-ordering rule read → IdP round trip → creating write over the own call graph",
         "Decides that logout is handled before anything can allow, that the session named by the cookie is removed before the logout answer and a failed removal is reported as an error, that the answer redirects to the configured/discovered end-session URI and expires the cookie, and flags every creating token write that follows a token-endpoint round trip (the schedule clause as an effect ordering). The two existing such writes are genuine, reproduced and listed as known findings; interleavings as such are not explored.",
         "go/ssa model; both stores create the session on write when absent (read from their code in C12)"),
 "C11": ("exact table rule on the refresh form, call-site facts (expired ∧ refresh token present), per-field total-and-guarded merge rule enumerated from the TokenResponse type, refresh-helper summary (exchange OK ∧ validator true), outcome rules on Process",
         "Decides that the refresh grant carries the refresh token just read from the store with the configured client credentials, that every TokenResponse field is merged (new under its guard, else stored; new values are actually taken), that a non-nil result was validated, and that failure removes the stale session via the login redirect while success stores and allows the same merged object. Behaviour over many lifetimes against the provider's ledger is not modelled.",
         "go/ssa model; C05.R1 for removal in the redirect helper"),
 "C08": ("loop-shape rules on Check (forward range counters, no reordering), CFG outcome rules (first match final, non-match continues, default deny), type-switch exhaustiveness against the generated oneof with per-arm provenance, branch-fact rules on the criterion function",
         "Decides that chains and filters are visited in configuration order, that after a matching chain no later chain is reachable, that every surviving filter kind has an arm building the judging handler from that filter's own configuration, that the fall-through is deny unless unmatched requests are allowed, and that the criterion is nil/equality/prefix on the lower-cased header with the header value as subject. Equivalence with a reference evaluator over all layouts is not established.",
         "go/ssa model; C01.R5 for the per-filter loop; C17.R3 for the eliminated override kind"),
 "C12": ("lockset rule on the memory store (every access to the session map and session fields under its mutex), writer/reader/scan-struct table agreement for the Redis hash fields (constants, package tables, struct tags), stale-member HDEL rule, no-replica-local-state write scan, backend-key provenance in both stores",
         "Decides necessary conditions of `both stores implement one abstract session map`: single-operation atomicity of the memory store by lock discipline, agreement of what the Redis store writes, reads, scans, clears and removes, absence of replica-local state, keys derived only from the session-id parameter, write-once creation time. Equivalence with the abstract map over all operation sequences and linearizability are not decided.",
         "go/ssa model; Redis command semantics; struct tags drive go-redis Scan"),
 "C14": ("interprocedural backward taint (data-dependence through SSA operands, memory of local objects, parameters → call sites, own callees' returns) from every browser-bound sink to the declared secret sources, with the S256 challenge hash as the only sanitiser",
         "Decides that no denial/redirect body, header, status message or server deny message data-depends on the client secret, a PKCE verifier, an ID/access/refresh token, an IdP response body or an error value, and that the OK writer's headers carry no secret beyond the ID and access token. Over-approximate (any tainted operand taints the result); encodings inside libraries and log output are not examined.",
         "go/ssa model; session id, state, nonce and S256 challenge are by definition not secrets here"),
 "C18": ("existence rule over three namespacing mechanisms (per-filter store creation, per-filter discriminator in store keys, metadata comparison) using branch facts and key provenance; constructor-argument provenance for the shared store's timeouts; receiver provenance of every configuration getter in the handler",
         "Decides whether any per-filter value at all reaches the session lookup — a necessary condition of isolation — and whether a store serving several filters takes one filter's timeouts. Both fail on the tree; both were reproduced against the real code (cross-filter session replay by renaming the cookie; shared timeouts) and are listed as known findings keyed by construct, so a new violation of either rule is still reported. Per-filter use of cookie name, endpoints and credentials inside the handler is decided and holds.",
         "go/ssa model; configuration loading guarantees at most one OIDC filter per chain"),
 "C19": ("branch-fact guard chain at the client-secret write, provenance of the written objects and value, who-may-write scan for the index, call-site rule for the loader, namespace refusal facts, request-time read and no-cached-copy rules",
         "Decides that Reconcile writes the Secret's current non-empty value only for an indexed, fetched, non-deleting Secret and only into the configurations indexed under its name; that the index is built once at start-up from pointers (so rotation survives the oneof flip); that cross-namespace references are refused and the refusal propagates; and that token requests read the secret from the configuration when they are built. Event orderings and visibility to running checks (C16 finding) are not decided.",
         "go/ssa model; controller-runtime delivers Reconcile requests as documented"),
 "C20": ("single-writer and branch-fact rules for InsecureSkipVerify, provenance rule for every RootCAs store (system pool + successful append), assumed-atom path feasibility (non-empty CA ⇒ RootCAs set; cancel before re-register), pointer-sharing rule for the pooled config, interface/struct table agreement for the pool key, watcher life-cycle shape rules",
         "Decides the structural part of `TLS trust follows the configuration`: skip-verify only without any CA, trust store = system roots + configured CA or nothing installed, the pooled *tls.Config is shared (not cloned) with clients and updated in place under its id by the reload callback, the pool key covers every TLS setting, superseded watchers are cancelled, no watcher without interval, callback only on change, BoolStrValue semantics. Handshake outcomes and timing are not decided; the unsynchronised RootCAs write is C16's known finding; the non-atomic get-or-create is recorded as an observation only.",
         "go/ssa model; crypto/x509, crypto/tls and net/http contracts"),
}

NOT_YET = "check under construction in this round; see DESIGN.md section 4 for the planned static rules"


def main():
    ids = subprocess.run([os.path.join(VERIF, "bin", "authcheck"), "list"], capture_output=True, text=True).stdout.split()
    props = [json.loads(l) for l in open(os.path.join(VERIF, "properties.jsonl")) if l.strip()]
    checks, na = [], []
    na_reasons = json.load(open(os.path.join(VERIF, "bin", "not_applicable.json"))) if os.path.exists(os.path.join(VERIF, "bin", "not_applicable.json")) else {}
    for p in props:
        pid = p["id"]
        if pid in ids and pid in CLAIMS:
            tech, text, note = CLAIMS[pid]
            checks.append({
                "property_id": pid,
                "quick_cmd": "bin/check %s quick" % pid,
                "thorough_cmd": "bin/check %s thorough" % pid,
                "evidence_file": "/verif/evidence/%s.json" % pid,
                "replay_cmd_template": "bin/check explain {path}",
                "engine": "authcheck",
                "level_claimed": {"category": "other", "text": text, "design_ref": "DESIGN.md section 4, " + pid},
                "level_note": note,
                "technique": "static analysis: " + tech + EXTRA.get(pid, "") + "; a reported violation is re-evaluated on source-inlined normal forms of the tree (freshly extracted helpers inlined via go/packages overlay, type-checked again), which can acquit but never convict",
            })
        else:
            na.append({"property_id": pid, "reason": na_reasons.get(pid, NOT_YET)})
    man = {
        "version": 1,
        "setup_cmd": "bash bin/setup.sh",
        "hooks": {
            "guard": "verif",
            "enable": "none needed: static analysis reads /repo's sources and never builds or runs them with hooks",
            "baseline_off_cmd": "bash bin/baseline.sh",
            "source_commits": [],
            "add_only": True,
        },
        "engines": [{
            "name": "authcheck",
            "path": "checker/",
            "serves_properties": [c["property_id"] for c in checks],
            "kind_free_text": "repository-specific static analyser (Go, golang.org/x/tools v0.29.0: go/packages, go/types, go/ssa): branch-fact dataflow, provenance slices, CFG must-pass/never-reach, lockset, call graph; one rule file per property",
        }],
        "checks": checks,
        "notes": "All claims are at level 'other': structural necessary conditions decided from source on every run; see DESIGN.md sections 4 and 6 for what each check does not decide. known_findings.json lists genuine defects that were recorded rather than repaired, and the fix: commits made in /repo.",
        "not_applicable": na,
    }
    json.dump(man, open(os.path.join(VERIF, "MANIFEST.json"), "w"), indent=1)
    # validate
    try:
        import jsonschema
        jsonschema.validate(man, json.load(open("/root/.vp/MANIFEST.schema.json")))
        print("MANIFEST.json valid: %d checks, %d not_applicable" % (len(checks), len(na)))
    except ImportError:
        print("MANIFEST.json written (jsonschema not available for validation)")


if __name__ == "__main__":
    main()
