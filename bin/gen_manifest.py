#!/usr/bin/env python3
"""Regenerates /verif/MANIFEST.json from the table below and from `bin/authcheck list` (the set of
properties that have a registered check).  Run after adding or removing a check."""
import json, os, subprocess, sys

VERIF = os.path.dirname(os.path.dirname(os.path.abspath(__file__)))

# id -> (technique, level text, level note)
CLAIMS = {
 "C01": ("SSA branch-fact (must) dataflow + CFG reachability + callee summaries: who-may-write-OK, allow-site justification, static fault enumeration over every error/absent result",
         "Decides, for every path through Check/Process and every position at which a store, IdP or key-source call can fail, that no OK writer is reachable without the justification facts (fresh or just-refreshed-and-persisted tokens under the cookie's session id). Structural necessary conditions of the fail-closed property for all inputs and fault positions; does not decide whether a stored session ought to be alive (C10) nor library internals.",
         "go/types+go/ssa model of /repo; role table (verdict writers, store interface, token exchange, validator) resolved from types; jwx/net/http contracts assumed"),
}

NOT_YET = "check under construction in this round; see DESIGN.md section 4 for the planned static rules"


def main():
    ids = subprocess.run([os.path.join(VERIF, "bin", "authcheck"), "list"], capture_output=True, text=True).stdout.split()
    props = [json.loads(l) for l in open(os.path.join(VERIF, "properties.jsonl")) if l.strip()]
    checks, na = [], []
    na_reasons = json.load(open(os.path.join(VERIF, "bin", "not_applicable.json"))) if os.path.exists(os.path.join(VERIF, "bin", "not_applicable.json")) else {}
    for p in props:
        pid = p["id"]
        if pid in ids and pid in CLAIMS:
            tech, text, note = CLAIMS[pid]
            checks.append({
                "property_id": pid,
                "quick_cmd": "bin/check %s quick" % pid,
                "thorough_cmd": "bin/check %s thorough" % pid,
                "evidence_file": "/verif/evidence/%s.json" % pid,
                "replay_cmd_template": "bin/check explain {path}",
                "engine": "authcheck",
                "level_claimed": {"category": "other", "text": text, "design_ref": "DESIGN.md section 4, " + pid},
                "level_note": note,
                "technique": "static analysis: " + tech,
            })
        else:
            na.append({"property_id": pid, "reason": na_reasons.get(pid, NOT_YET)})
    man = {
        "version": 1,
        "setup_cmd": "bash bin/setup.sh",
        "hooks": {
            "guard": "verif",
            "enable": "none needed: static analysis reads /repo's sources and never builds or runs them with hooks",
            "baseline_off_cmd": "bash bin/baseline.sh",
            "source_commits": [],
            "add_only": True,
        },
        "engines": [{
            "name": "authcheck",
            "path": "checker/",
            "serves_properties": [c["property_id"] for c in checks],
            "kind_free_text": "repository-specific static analyser (Go, golang.org/x/tools v0.29.0: go/packages, go/types, go/ssa): branch-fact dataflow, provenance slices, CFG must-pass/never-reach, lockset, call graph; one rule file per property",
        }],
        "checks": checks,
        "notes": "All claims are at level 'other': structural necessary conditions decided from source on every run; see DESIGN.md sections 4 and 6 for what each check does not decide. known_findings.json lists genuine defects that were recorded rather than repaired, and the fix: commits made in /repo.",
        "not_applicable": na,
    }
    json.dump(man, open(os.path.join(VERIF, "MANIFEST.json"), "w"), indent=1)
    # validate
    try:
        import jsonschema
        jsonschema.validate(man, json.load(open("/root/.vp/MANIFEST.schema.json")))
        print("MANIFEST.json valid: %d checks, %d not_applicable" % (len(checks), len(na)))
    except ImportError:
        print("MANIFEST.json written (jsonschema not available for validation)")


if __name__ == "__main__":
    main()
