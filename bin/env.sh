# Environment shared by setup and every check. Source it; do not execute.
GOTC=/root/go/pkg/mod/golang.org/toolchain@v0.0.1-go1.24.2.linux-amd64
export PATH="$GOTC/bin:$PATH"
export GOTOOLCHAIN=local
export GOFLAGS=-mod=mod
export GOPROXY=off
export GOWORK=off
export GONOSUMDB='*' GONOSUMCHECK=1 GOFLAGS=-mod=mod
unset GOSUMDB || true
